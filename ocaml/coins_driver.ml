(* Model side of the `coins` family (C15): runs the extracted layered-cache model on an operation
   script and prints exactly what tie/drivers/coins_drv.cpp prints; `holds` evaluates the property's
   own predicate (the flat-map specification, Model.holds_step / holds_acct / entry_sane) on what
   the implementation printed. See coins_drv.cpp for the case and output formats. *)
open Conv

let split c s = String.split_on_char c s

let parse_coin t : Model.coin = match split ':' t with
  | [v; h; cb; sl; u] ->
    { Model.c_value = z_of_string v; c_height = z_of_string h; c_cb = (cb = "1");
      c_slen = z_of_string sl; c_unsp = (u = "1") }
  | _ -> failwith "coin"

let show_coin (c : Model.coin) =
  String.concat ":" [string_of_z c.Model.c_value; string_of_z c.Model.c_height;
                     string_of_bool01 c.Model.c_cb; string_of_z c.Model.c_slen; string_of_bool01 c.Model.c_unsp]
let show_ocoin = function None -> "-" | Some c -> show_coin c
let parse_ocoin t = if t = "-" then None else Some (parse_coin t)

let nat s = nat_of_int (int_of_string s)

exception Bad_case

(* tokens after the header -> operations *)
let rec parse_ops (w : string list) : Model.op list = match w with
  | [] -> []
  | "add" :: d :: k :: c :: ow :: r -> Model.OpAdd (nat d, nat k, parse_coin c, ow = "1") :: parse_ops r
  | "spend" :: d :: k :: r -> Model.OpSpend (nat d, nat k) :: parse_ops r
  | "get" :: d :: k :: r -> Model.OpGet (nat d, nat k) :: parse_ops r
  | "have" :: d :: k :: r -> Model.OpHave (nat d, nat k) :: parse_ops r
  | "access" :: d :: k :: r -> Model.OpAccess (nat d, nat k) :: parse_ops r
  | "peek" :: d :: k :: r -> Model.OpPeek (nat d, nat k) :: parse_ops r
  | "uncache" :: d :: k :: r -> Model.OpUncache (nat d, nat k) :: parse_ops r
  | "flush" :: d :: r -> Model.OpFlush (nat d) :: parse_ops r
  | "sync" :: d :: r -> Model.OpSync (nat d) :: parse_ops r
  | "reset" :: d :: r -> Model.OpReset (nat d) :: parse_ops r
  | "push" :: k :: r -> Model.OpPush (k = "o") :: parse_ops r
  | "pop" :: r -> Model.OpPop :: parse_ops r
  | _ -> raise Bad_case

type case = { u : int; kinds : bool list; db : (Model.nat * Model.coin) list; ops : Model.op list }

let parse_case (l : string) : case = match words l with
  | "ops" :: _base :: u :: kinds :: dbi :: rest ->
    let db =
      if dbi = "-" then []
      else List.fold_left (fun acc kv -> match split '=' kv with
          | [k; c] -> let c = parse_coin c in
            if c.Model.c_unsp then acc else Model.m_set (nat k) c acc   (* loaded with AddCoin + Flush *)
          | _ -> raise Bad_case) [] (split ',' dbi) in
    { u = int_of_string u; kinds = List.init (String.length kinds) (fun i -> kinds.[i] = 'o');
      db; ops = parse_ops rest }
  | _ -> raise Bad_case

let universe u = List.init u nat_of_int

let show_views u ls db =
  String.concat " "
    (List.map (fun v -> String.concat "," (List.map show_ocoin v)) (Model.stack_views (universe u) ls db))

let show_obs = function
  | Model.ObUnit -> "u"
  | Model.ObCoin c -> "c:" ^ show_ocoin c
  | Model.ObBool b -> "b:" ^ string_of_bool01 b
  | Model.ObSpend (b, mv) -> "s:" ^ string_of_bool01 b ^ "=" ^ show_ocoin mv

let show_err = function
  | Model.ErrOverwrite -> "throw:overwrite"
  | Model.ErrFreshMisapplied -> "throw:fresh"
  | Model.ErrBadLayer -> "badlayer"

let dump_layer u (l : Model.layer) =
  let ((rs, rd), ru) = Model.layer_recount l in
  let ents = List.filter_map (fun k -> match Model.m_get k l.Model.l_map with
      | None -> None
      | Some e ->
        Some (Printf.sprintf "%d=%s=%s=%s" (int_of_nat k) (show_ocoin e.Model.e_coin) (string_of_z (Model.entry_usage e))
                (if e.Model.e_dirty then (if e.Model.e_fresh then "df" else "d") else (if e.Model.e_fresh then "f" else "n"))))
      (universe u) in
  let ents = if List.length ents <> List.length l.Model.l_map then ents @ ["EXTRA"] else ents in
  String.concat " "
    [ (if l.Model.l_overlay then "o" else "c"); string_of_z rs; string_of_z l.Model.l_dirty; string_of_z l.Model.l_usage;
      string_of_z rs; string_of_z rd; string_of_z ru; string_of_int (List.length (Model.flagged l.Model.l_map));
      (if ents = [] then "-" else String.concat "," ents) ]

let model _ line =
  match (try Some (parse_case line) with Bad_case | Failure _ | Invalid_argument _ -> None) with
  | None -> "BADCASE"
  | Some c ->
    let buf = Buffer.create 1024 in
    let rec go ls db ops first = match ops with
      | [] ->
        Buffer.add_string buf " #";
        List.iteri (fun d l -> Buffer.add_string buf ((if d > 0 then " @ " else " ") ^ dump_layer c.u l)) ls
      | o :: r ->
        if not first then Buffer.add_string buf " ; ";
        (match Model.step ls db o with
         | Model.Throw e -> Buffer.add_string buf (show_err e)
         | Model.Ok ((ls', db'), ob) ->
           Buffer.add_string buf (show_obs ob ^ " / " ^ show_views c.u ls' db');
           go ls' db' r false)
    in
    go (Model.init_layers c.kinds) c.db c.ops true;
    Buffer.contents buf

(* ---- the property's predicate on the implementation's output ---- *)
let split_str sep s =
  let re = Str.regexp_string sep in Str.split_delim re s

let parse_obs t : Model.obs option =
  if t = "u" then Some Model.ObUnit
  else if String.length t >= 2 && String.sub t 0 2 = "c:" then Some (Model.ObCoin (parse_ocoin (String.sub t 2 (String.length t - 2))))
  else if String.length t >= 2 && String.sub t 0 2 = "b:" then Some (Model.ObBool (String.sub t 2 (String.length t - 2) = "1"))
  else if String.length t >= 2 && String.sub t 0 2 = "s:" then
    (match split '=' (String.sub t 2 (String.length t - 2)) with
     | [b; mv] -> Some (Model.ObSpend (b = "1", parse_ocoin mv))
     | _ -> None)
  else None

let parse_views t = List.map (fun v -> List.map parse_ocoin (split ',' v)) (words t)

let op_name = function
  | Model.OpAdd _ -> "add" | Model.OpSpend _ -> "spend" | Model.OpGet _ -> "get" | Model.OpHave _ -> "have"
  | Model.OpAccess _ -> "access" | Model.OpPeek _ -> "peek" | Model.OpUncache _ -> "uncache" | Model.OpFlush _ -> "flush"
  | Model.OpSync _ -> "sync" | Model.OpReset _ -> "reset" | Model.OpPush _ -> "push" | Model.OpPop -> "pop"

let check_final (views : Model.coin option list list option) (fin : string) : string option =
  (* per cache: kind size dirty usage rsize rdirty rusage linked entries *)
  let layers = split_str " @ " (String.trim fin) in
  let rec go i = function
    | [] -> None
    | l :: r ->
      (match words l with
       | [_; s; d; us; rs; rd; ru; linked; ents] ->
         let z = z_of_string in
         if not (Model.holds_acct ((z s, z d), z us) ((z rs, z rd), z ru)) then
           Some (Printf.sprintf "accounting of cache at depth %d is not exact: size/dirty/usage reported %s/%s/%s, recomputed %s/%s/%s" i s d us rs rd ru)
         else if linked <> rd then
           Some (Printf.sprintf "cache at depth %d: %s entries in the flagged list but %s DIRTY entries" i linked rd)
         else begin
           let below k = match views with
             | Some vws when List.length vws > i + 1 ->
               (try Some (List.nth (List.nth vws (i + 1)) k) with _ -> None)
             | _ -> None in
           let bad = if ents = "-" then None else
               List.find_map (fun e -> match split '=' e with
                   | [k; c; _; fl] ->
                     let ent = { Model.e_coin = parse_ocoin c; e_cap = z_of_int 0;
                                 e_dirty = (fl = "d" || fl = "df"); e_fresh = (fl = "f" || fl = "df") } in
                     if not (Model.entry_sane ent) then
                       Some (Printf.sprintf "cache at depth %d holds an entry with a flag combination SanityCheck rejects: %s" i e)
                     else (match below (int_of_string k) with
                         | Some b when not (Model.entry_check b ent) ->
                           Some (Printf.sprintf "cache at depth %d: entry %s contradicts the view below it (%s): FRESH over an unspent coin, or a non-DIRTY entry that differs from its base" i e (show_ocoin b))
                         | _ -> None)
                   | _ -> Some "malformed entry") (split ',' ents) in
           match bad with
           | Some why -> Some why
           | None -> go (i + 1) r
         end
       | _ -> Some "malformed final dump")
  in go 0 layers

let holds _ case impl =
  match (try Some (parse_case case) with Bad_case | Failure _ | Invalid_argument _ -> None) with
  | None -> "na"
  | Some c ->
    let body, fin = match split_str " # " impl with
      | [b; f] -> (b, Some f)
      | [b] -> (b, None)
      | _ -> (impl, None) in
    let steps = if String.trim body = "" then [] else split_str " ; " body in
    let uni = universe c.u in
    let rec go vs ops steps i lastv = match ops, steps with
      | [], [] ->
        (match fin with
         | None -> if c.ops = [] then "ok" else "fail no final dump"
         | Some f -> (match check_final lastv f with None -> "ok" | Some why -> "fail " ^ why))
      | o :: r, st :: sr ->
        (match Model.spec_step vs o with
         | Model.SMisuse | Model.SBadLayer -> "na"   (* the script leaves the property's domain here *)
         | Model.SOk _ ->
           if String.length st >= 5 && String.sub st 0 5 = "throw" then
             Printf.sprintf "fail op %d (%s): %s on a call the flat-map specification allows" i (op_name o) st
           else if st = "badlayer" then Printf.sprintf "fail op %d (%s): no such cache" i (op_name o)
           else
             (match split_str " / " st with
              | [ob; vws] ->
                (match parse_obs ob with
                 | None -> "fail malformed observation"
                 | Some iob ->
                   let pv = parse_views vws in
                   (match Model.holds_step uni vs o iob pv with
                    | Model.VOk vs' -> go vs' r sr (i + 1) (Some pv)
                    | Model.VFailObs -> Printf.sprintf "fail op %d (%s): returned %s, the flat map says otherwise" i (op_name o) ob
                    | Model.VFailViews -> Printf.sprintf "fail op %d (%s): afterwards some view differs from its flat map: %s" i (op_name o) vws
                    | Model.VNa -> "na"))
              | _ -> "fail malformed step"))
      | _ :: _, [] -> "fail output ends early"
      | [], _ :: _ -> "fail more outputs than operations"
    in
    (try go (Model.init_spec (nat_of_int (List.length c.kinds)) c.db) c.ops steps 0 None with Failure _ -> "fail malformed output")

let () = main_loop ~model ~holds
