(* Model side of the Lin family (C24): ChunkLinearization model + validators for the outputs of the
   real Linearize / PostLinearize (translation validation). *)
open Conv

let zs = z_of_string
let sz = string_of_z

type case = { n : int; fr : (Model.z * Model.z) list; deps : (Model.nat * Model.nat) list;
              is_topo : bool; old : Model.nat list }

let rec take k l acc = if k = 0 then (List.rev acc, l) else match l with
    | x :: r -> take (k - 1) r (x :: acc) | [] -> failwith "short case"

let rec pairs = function a :: b :: r -> (a, b) :: pairs r | [] -> [] | _ -> failwith "odd"

(* lin <n> {fee size}*n <m> {parent child}*m <max_cost> <rng_seed> <is_topological> <k> {old}*k *)
let parse_case l = match words l with
  | "lin" :: n :: r ->
    let n = int_of_string n in
    let (frw, r) = take (2 * n) r [] in
    (match r with
     | m :: r ->
       let (dw, r) = take (2 * int_of_string m) r [] in
       (match r with
        | _maxcost :: _seed :: topo :: k :: r ->
          let (ow, r) = take (int_of_string k) r [] in
          if r <> [] then failwith "trailing";
          { n; fr = List.map (fun (a, b) -> (zs a, zs b)) (pairs frw);
            deps = List.map (fun (a, b) -> (nat_of_int (int_of_string a), nat_of_int (int_of_string b))) (pairs dw);
            is_topo = (topo = "1"); old = List.map (fun x -> nat_of_int (int_of_string x)) ow }
        | _ -> failwith "short")
     | [] -> failwith "short")
  | _ -> failwith "BADCASE"

let chunks_str c = String.concat "" (List.map (fun (f, s) -> " " ^ sz f ^ " " ^ sz s) c)
let feerates c lin = match Model.lin_feerates c.fr lin with Some l -> l | None -> failwith "index out of range"

let model _ l =
  let c = parse_case l in
  "CH" ^ chunks_str (Model.chunking (feerates c c.old)) ^ " ##"

(* sections of the implementation's output: KEY tokens... *)
let sections ws =
  let keys = ["CH"; "##"; "LIN"; "OPT"; "POST"; "POSTOLD"; "CHL"; "CHP"; "CHI"] in
  let rec go cur acc out = function
    | [] -> List.rev ((cur, List.rev acc) :: out)
    | w :: r when List.mem w keys -> go w [] ((cur, List.rev acc) :: out) r
    | w :: r -> go cur (w :: acc) out r in
  go "" [] [] ws

let natl ws = List.map (fun x -> nat_of_int (int_of_string x)) ws
let max_exhaustive = 7

let holds _ cl impl =
  let c = parse_case cl in
  let sec = sections (words impl) in
  let get k = try List.assoc k sec with Not_found -> failwith ("missing section " ^ k) in
  let n = nat_of_int c.n in
  let topo l = Model.is_topological n c.deps l in
  let lin = natl (get "LIN") and post = natl (get "POST") in
  let opt = (get "OPT" = ["1"]) in
  let postold = match get "POSTOLD" with ["-"] -> None | l -> Some (natl l) in
  let old_is_topo = c.old <> [] && topo c.old in
  let nw o nw_ = Model.valid_and_not_worse n c.fr c.deps o nw_ in
  let fail s = "fail " ^ s in
  if c.is_topo && c.old <> [] && not old_is_topo then "na"   (* generator error: claimed-topological input is not *)
  else if "CH" ^ chunks_str (Model.chunking (feerates c c.old)) <> "CH" ^ String.concat "" (List.map (fun w -> " " ^ w) (get "CH"))
  then fail "ChunkLinearization(old) differs from the chunking model"
  else if not (topo lin) then fail "Linearize output is not a topologically valid permutation of the cluster"
  else if not (topo post) then fail "PostLinearize output is not a topologically valid permutation of the cluster"
  else if chunks_str (Model.chunking (feerates c lin)) <> String.concat "" (List.map (fun w -> " " ^ w) (get "CHL"))
  then fail "ChunkLinearization(Linearize output) differs from the chunking model"
  else if chunks_str (Model.chunking (feerates c post)) <> String.concat "" (List.map (fun w -> " " ^ w) (get "CHP"))
  then fail "ChunkLinearization(PostLinearize output) differs from the chunking model"
  else if not (Model.feerates_nonincreasing (List.map (fun (a, b) -> (zs a, zs b)) (pairs (get "CHP"))))
  then fail "chunk feerates of the final linearization are not non-increasing"
  else if old_is_topo && not (nw c.old lin) then fail "Linearize output has a worse feerate diagram than its topologically valid input"
  else if not (nw lin post) then fail "PostLinearize made the feerate diagram worse"
  else if (match postold with Some po -> not (nw c.old po) | None -> false)
  then fail "PostLinearize(old) is not topological or has a worse diagram than old"
  else if Model.post_linearize n c.deps c.fr lin <> post then fail "PostLinearize(Linearize output) differs from the PostLinearize model"
  else if (match postold with Some po -> Model.post_linearize n c.deps c.fr c.old <> po | None -> false)
  then fail "PostLinearize(old) differs from the PostLinearize model"
  else if not (Model.chunks_connected c.fr c.deps post) then fail "a chunk of the PostLinearize output is not connected"
  else if (match postold with Some po -> not (Model.chunks_connected c.fr c.deps po) | None -> false)
  then fail "a chunk of PostLinearize(old) is not connected"
  else begin
    (* ChunkLinearizationInfo's transaction sets = the model's chunk members *)
    let mine = String.concat " " (List.map (fun (m, _) ->
        String.concat "," (List.map string_of_int (List.sort compare (List.map int_of_nat m))) ^ ";")
        (Model.chunking_info (fun i -> List.nth c.fr (int_of_nat i)) post)) in
    if mine <> String.concat " " (get "CHI") then fail ("ChunkLinearizationInfo sets differ from the model: " ^ mine)
    else if opt && c.n <= max_exhaustive && not (Model.dominates_all_topo n c.fr c.deps lin)
    then fail "result reported optimal, but some topological order has a diagram that is better somewhere"
    (* POST is not worse than LIN (checked above), hence also dominates every topological order *)
    else "ok"
  end

let () = main_loop ~model ~holds
