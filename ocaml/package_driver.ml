(* Model side of C29.
   mode wf: wf <nbuild> { n <nin> {e <a> <n> | p <j> <n>}* <pad> <wit> <weight> | t <j> <wit> <weight> }* <npkg> <idx>*
   txid labels: built transaction b gets b+1 (a twin gets the label of its original); wtxid label = txid*1000 + wit
   (the witness is the only thing a twin changes); external hash a is 1000000+a. *)
open Conv

let reason_str = function
  | Model.Package_too_many_transactions -> "package-too-many-transactions"
  | Model.Package_too_large -> "package-too-large"
  | Model.Package_contains_duplicates -> "package-contains-duplicates"
  | Model.Package_not_sorted -> "package-not-sorted"
  | Model.Conflict_in_package -> "conflict-in-package"

let parse_wf ws =
  match ws with
  | "wf" :: nb :: r ->
    let nb = int_of_string nb in
    let built = Array.make (max nb 1) None in
    let rest = ref r in
    let next () = match !rest with x :: t -> rest := t; x | [] -> failwith "short case" in
    for b = 0 to nb - 1 do
      let kind = next () in
      if kind = "n" then begin
        let nin = int_of_string (next ()) in
        let ins = ref [] in
        for _ = 1 to nin do
          let ik = next () in let a = int_of_string (next ()) in let n = next () in
          let h = if ik = "e" then 1000000 + a else
              (match built.(a) with Some (t, _) -> int_of_z t.Model.p_txid | None -> failwith "forward ref") in
          ins := (z_of_int h, z_of_string n) :: !ins
        done;
        let _pad = next () in let wit = int_of_string (next ()) in let wgt = next () in
        built.(b) <- Some ({ Model.p_txid = z_of_int (b + 1); Model.p_wtxid = z_of_int ((b + 1) * 1000 + wit);
                             Model.p_inputs = List.rev !ins; Model.p_weight = z_of_string wgt;
                             Model.p_fee = z_of_int 0; Model.p_version = z_of_int 2; Model.p_nout = z_of_int 1 }, wit)
      end else if kind = "t" then begin
        let j = int_of_string (next ()) in let wit = int_of_string (next ()) in let wgt = next () in
        (match built.(j) with
         | Some (t, _) -> built.(b) <- Some ({ t with Model.p_wtxid = z_of_int (int_of_z t.Model.p_txid * 1000 + wit); Model.p_weight = z_of_string wgt }, wit)
         | None -> failwith "bad twin")
      end else failwith "bad build kind"
    done;
    let np = int_of_string (next ()) in
    let pkg = ref [] in
    for _ = 1 to np do
      match built.(int_of_string (next ())) with Some (t, _) -> pkg := t :: !pkg | None -> failwith "bad idx"
    done;
    List.rev !pkg
  | _ -> failwith "bad case"

let b01 b = if b then "1" else "0"
let wf_str = function None -> "ok" | Some r -> reason_str r

let show_wf pkg =
  Printf.sprintf "%s topo=%s cons=%s cwp=%s tree=%s" (wf_str (Model.is_well_formed pkg))
    (b01 (Model.is_topo_sorted pkg)) (b01 (Model.is_consistent pkg))
    (b01 (Model.is_child_with_parents pkg)) (b01 (Model.is_child_with_parents_tree pkg))

(* the property's own predicate on what the implementation answered: verdict and reason are those of the
   independent first-violated-rule function; the one-child-with-parents answers are the declarative ones *)
let holds_wf pkg impl =
  if not (Model.weights_ok_b pkg) then "na" else
  match words impl with
  | [v; topo; cons; cwp; tree] ->
    let exp_v = wf_str (Model.first_violation pkg) in
    let nodup = not (Model.has_dup (List.map (fun t -> t.Model.p_txid) pkg)) in
    let exp_topo = "topo=" ^ b01 (not (Model.unsorted pkg)) in
    let exp_cons = "cons=" ^ b01 (not (Model.has_empty_vin pkg || Model.has_conflict pkg)) in
    let exp_cwp = "cwp=" ^ b01 (Model.spec_cwp_b pkg) in
    let exp_tree = "tree=" ^ b01 (Model.spec_cwp_tree_b pkg) in
    if v <> exp_v then "fail wf verdict/reason is not the first violated rule: expected " ^ exp_v
    else if nodup && topo <> exp_topo then "fail topo-sorted answer differs from the declarative one: expected " ^ exp_topo
    else if cons <> exp_cons then "fail consistency answer differs from the declarative one: expected " ^ exp_cons
    else if cwp <> exp_cwp then "fail child-with-parents answer differs from the declarative one: expected " ^ exp_cwp
    else if tree <> exp_tree then "fail child-with-parents-tree answer differs from the declarative one: expected " ^ exp_tree
    else "ok"
  | _ -> "fail malformed implementation output"

(* ---- mode accept ----
   acc <nbuild> { n <ver> <nin> {u <k> | p <j> <n> | x <a>}* <nout> <fee> <wit> <weight> | t <j> <wit> <weight> }* <npre> <idx>* <npkg> <idx>*
   stock coin k is the outpoint (2000000+k, 0); a non-existent outpoint a is (3000000+a, 0) *)
let nstock = 64
let utxo (o : Model.z * Model.z) : bool =
  let h = int_of_z (fst o) and n = int_of_z (snd o) in h >= 2000000 && h < 2000000 + nstock && n = 0

let parse_acc ws =
  match ws with
  | "acc" :: nb :: r ->
    let nb = int_of_string nb in
    let built = Array.make (max nb 1) None in
    let rest = ref r in
    let next () = match !rest with x :: t -> rest := t; x | [] -> failwith "short case" in
    let get b = match built.(b) with Some t -> t | None -> failwith "bad ref" in
    for b = 0 to nb - 1 do
      let kind = next () in
      if kind = "n" then begin
        let ver = next () in
        let nin = int_of_string (next ()) in
        let ins = ref [] in
        for _ = 1 to nin do
          let ik = next () in
          (match ik with
           | "u" -> let k = int_of_string (next ()) in ins := (z_of_int (2000000 + k), z_of_int 0) :: !ins
           | "p" -> let j = int_of_string (next ()) in let n = next () in ins := ((get j).Model.p_txid, z_of_string n) :: !ins
           | "x" -> let a = int_of_string (next ()) in ins := (z_of_int (3000000 + a), z_of_int 0) :: !ins
           | _ -> failwith "bad input kind")
        done;
        let nout = next () in let fee = next () in let wit = int_of_string (next ()) in let wgt = next () in
        built.(b) <- Some { Model.p_txid = z_of_int (b + 1); Model.p_wtxid = z_of_int ((b + 1) * 1000 + wit);
                            Model.p_inputs = List.rev !ins; Model.p_weight = z_of_string wgt;
                            Model.p_fee = z_of_string fee; Model.p_version = z_of_string ver; Model.p_nout = z_of_string nout }
      end else if kind = "t" then begin
        let j = int_of_string (next ()) in let wit = int_of_string (next ()) in let wgt = next () in
        let t = get j in
        built.(b) <- Some { t with Model.p_wtxid = z_of_int (int_of_z t.Model.p_txid * 1000 + wit); Model.p_weight = z_of_string wgt }
      end else failwith "bad build kind"
    done;
    let take () = let n = int_of_string (next ()) in List.init n (fun _ -> get (int_of_string (next ()))) in
    let pre = take () in
    let pkg = take () in
    (Array.to_list (Array.sub built 0 nb) |> List.map (function Some t -> t | None -> failwith "hole"), pre, pkg)
  | _ -> failwith "bad case"

let why_str w = match int_of_z w with
  | 0 -> "mempool_full" | 1 -> "bad-txns-inputs-missingorspent" | 2 -> "min_relay_fee_not_met" | 3 -> "TRUC-violation"
  | 4 -> "insufficient_fee" | 5 -> "bad-txns-spends-conflicting-tx"
  | n -> "why" ^ string_of_int n
let state_str = function
  | Model.PS_valid -> "valid"
  | Model.PS_policy r -> "policy:" ^ reason_str r
  | Model.PS_not_child_with_parents -> "policy:package-not-child-with-parents"
  | Model.PS_tx_failed -> "tx:transaction_failed"
  | Model.PS_other c -> if int_of_z c = 1 then "policy:TRUC-violation" else "other:" ^ string_of_z c
let member pool t =
  if Model.has_wtxid pool t.Model.p_wtxid then "w" else if Model.has_txid pool t.Model.p_txid then "t" else "-"
let index_of_wtxid built w =
  let rec go i = function [] -> "?" | t :: r -> if string_of_z t.Model.p_wtxid = string_of_z w then string_of_int i else go (i + 1) r in go 0 built
let res_str built = function
  | None -> "-"
  | Some Model.R_valid -> "V"
  | Some Model.R_mempool_entry -> "M"
  | Some (Model.R_different_witness w) -> "D" ^ index_of_wtxid built w
  | Some (Model.R_invalid (retry, why)) -> "I" ^ b01 retry ^ ":" ^ why_str why

let show_acc (built, pre, pkg) =
  (* pre-state through single acceptance, as toy_prestate does, keeping the verdicts *)
  let pool, pre_res = List.fold_left (fun (pool, acc) t ->
      if Model.has_txid pool t.Model.p_txid then (pool, acc ^ "I") else
        let (r, pool') = Model.toy3_single utxo pool t in
        (pool', acc ^ (match r with Model.R_valid -> "V" | _ -> "I"))) ([], "") pre in
  let (((st, fin), _log), pafter) = Model.toy3_accept utxo pre pkg in
  let rs = if pkg = [] then "none" else String.concat "," (List.map (fun t -> res_str built (Model.rm_find t.Model.p_wtxid fin)) pkg) in
  Printf.sprintf "pre=%s state=%s n=%d r=%s before=%s:%d after=%s:%d" (if pre_res = "" then "none" else pre_res) (state_str st)
    (List.length fin) rs (String.concat "" (List.map (member pool) built)) (List.length pool)
    (String.concat "" (List.map (member pafter) built)) (List.length pafter)

(* the property on what the implementation did: (1) a package that is not well-formed / not child-with-parents
   is not evaluated (no results, mempool untouched, the verdict names the first violated rule);
   (2) otherwise results cover exactly the package, each matches mempool membership, no dangling child *)
let field name ws = let p = name ^ "=" in
  match List.find_opt (fun w -> String.length w >= String.length p && String.sub w 0 (String.length p) = p) ws with
  | Some w -> String.sub w (String.length p) (String.length w - String.length p) | None -> failwith ("missing field " ^ name)
let holds_acc (built, _pre, pkg) impl =
  let ws = words impl in
  let st = field "state" ws and n = int_of_string (field "n" ws) and r = field "r" ws in
  let before = field "before" ws and after = field "after" ws in
  let gate_reason = match Model.first_violation pkg with
    | Some x -> Some ("policy:" ^ reason_str x)
    | None -> if List.length pkg > 1 && not (Model.spec_cwp_b pkg) then Some "policy:package-not-child-with-parents" else None in
  match gate_reason with
  | Some g ->
    if n <> 0 then "fail transactions of an ill-formed package were evaluated (results reported)"
    else if before <> after then "fail mempool changed although the package is ill-formed"
    else if st <> g then "fail ill-formed package verdict is not the first violated rule: expected " ^ g
    else "ok"
  | None ->
    (* observed mempool after, as a pool of built transactions (membership by wtxid exactly) *)
    let mem = String.sub after 0 (String.index after ':') in
    let pafter = List.filteri (fun i _ -> mem.[i] = 'w') built in
    let obs = List.map (fun tok ->
        if tok = "-" then None
        else if tok = "V" then Some Model.R_valid
        else if tok = "M" then Some Model.R_mempool_entry
        else if tok.[0] = 'D' then
          (match int_of_string_opt (String.sub tok 1 (String.length tok - 1)) with
           | Some b -> Some (Model.R_different_witness (List.nth built b).Model.p_wtxid)
           | None -> Some (Model.R_different_witness (z_of_int (-1))))
        else Some (Model.R_invalid (false, z_of_int 0))) (String.split_on_char ',' r) in
    if not (Model.holds_results pkg obs (z_of_int n) pafter) then "fail a reported result does not match mempool membership, or the result map does not cover exactly the package"
    else if not (Model.holds_no_dangling pkg pafter) then "fail a package transaction is in the mempool while an in-package parent is absent"
    else "ok"

let model _ l =
  let ws = words l in
  match ws with
  | "wf" :: _ -> show_wf (parse_wf ws)
  | "acc" :: _ -> show_acc (parse_acc ws)
  | _ -> "BADCASE"
(* C27 on the same scenarios (mode accept3): the mempool the implementation ended with satisfies the TRUC topology
   invariant, recomputed by the model on the observed membership *)
let holds_acc3 (built, _pre, _pkg) impl =
  let ws = words impl in
  let after = field "after" ws in
  let mem = String.sub after 0 (String.index after ':') in
  let size = int_of_string (String.sub after (String.index after ':' + 1) (String.length after - String.index after ':' - 1)) in
  let pafter = List.filteri (fun i _ -> mem.[i] = 'w') built in
  if List.length pafter <> size then "fail the mempool holds transactions that were never submitted"
  else if Model.truc_holds pafter then "ok"
  else "fail TRUC invariant violated by the mempool the implementation ended with"

let holds args c impl =
  let ws = words c in
  match ws with
  | "wf" :: _ -> holds_wf (parse_wf ws) impl
  | "acc" :: _ -> if args = ["accept3"] then holds_acc3 (parse_acc ws) impl else holds_acc (parse_acc ws) impl
  | _ -> "na"
let () = main_loop ~model ~holds
