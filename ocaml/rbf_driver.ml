(* Model side of the Rbf family (C26): the check applied to every replacement the real node accepted. *)
open Conv

let zs = z_of_string
let sz = string_of_z

type txdef = { name : string; ver : string; fee : string; ins : (string * int) list }
type op = Add of txdef | Prio of string * string | Rbf of txdef | Pkg of txdef * txdef

let rec take k l acc = if k = 0 then (List.rev acc, l) else match l with
    | x :: r -> take (k - 1) r (x :: acc) | [] -> failwith "short case"
let rec pairs = function a :: b :: r -> (a, b) :: pairs r | [] -> [] | _ -> failwith "odd"

(* <name> <ver> <fee> <nout> <pad> <nin> {<src> <idx>}*nin *)
let parse_tx = function
  | name :: ver :: fee :: _nout :: _pad :: nin :: r ->
    let (iw, r) = take (2 * int_of_string nin) r [] in
    ({ name; ver; fee; ins = List.map (fun (s, i) -> (s, int_of_string i)) (pairs iw) }, r)
  | _ -> failwith "short tx"

let rec parse_ops ws = match ws with
  | [] -> []
  | ";" :: r -> parse_ops r
  | "add" :: r -> let (t, r) = parse_tx r in Add t :: parse_ops r
  | "prio" :: n :: d :: r -> Prio (n, d) :: parse_ops r
  | "rbf" :: r -> let (t, r) = parse_tx r in Rbf t :: parse_ops r
  | "pkg" :: r -> let (p, r) = parse_tx r in
    (match r with "," :: r -> let (c, r) = parse_tx r in Pkg (p, c) :: parse_ops r | _ -> failwith "pkg")
  | _ -> failwith "BADCASE"

let is_coin s = String.length s > 1 && s.[0] = 'u' && s.[1] >= '0' && s.[1] <= '9'

(* ids: position of the name among all defined transactions, in order of definition *)
let sections keys ws =
  let rec go cur acc out = function
    | [] -> List.rev ((cur, List.rev acc) :: out)
    | w :: r when List.mem w keys -> go w [] ((cur, List.rev acc) :: out) r
    | w :: r -> go cur (w :: acc) out r in
  go "" [] [] ws

let rec triples = function a :: b :: c :: r -> (a, b, c) :: triples r | [] -> [] | _ -> failwith "triples"

let model _ l =
  let ops = parse_ops (words l) in
  let names = List.filter_map (function Add t -> Some t.name | _ -> None) ops in
  "POOL" ^ String.concat "" (List.map (fun n -> " " ^ n) (List.sort compare names)) ^ " ##"

let holds _ cl impl =
  let iw = words impl in
  match iw with
  | "SETUPFAIL" :: _ -> "na"
  | _ ->
    let ops = parse_ops (words cl) in
    let sec = sections ["POOL"; "##"; "BEFORE"; "DB"; "RES"; "NEW"; "REPL"; "AFTER"; "DA"] iw in
    let get k = try List.assoc k sec with Not_found -> failwith ("missing section " ^ k) in
    let adds = List.filter_map (function Add t -> Some t | _ -> None) ops in
    let cands = List.concat (List.filter_map (function Rbf t -> Some [t] | Pkg (p, c) -> Some [p; c] | _ -> None) ops) in
    let is_pkg = List.exists (function Pkg _ -> true | _ -> false) ops in
    let all = adds @ cands in
    let id_of n =
      let rec go i = function [] -> failwith ("unknown name " ^ n) | t :: r -> if t.name = n then i else go (i + 1) r in
      go 0 all in
    let enc_in (s, i) = if is_coin s then (nat_of_int 0, nat_of_int (int_of_string (String.sub s 1 (String.length s - 1))))
      else (nat_of_int (id_of s + 1), nat_of_int i) in
    let before = triples (get "BEFORE") in
    let entry_of t =
      let (_, mf, vs) = try List.find (fun (n, _, _) -> n = t.name) before with Not_found -> failwith ("not in mempool before: " ^ t.name) in
      { Model.e_id = nat_of_int (id_of t.name); e_fee = zs mf; e_vsize = zs vs; e_ver = zs t.ver; e_ins = List.map enc_in t.ins } in
    let pool = List.map entry_of adds in
    let pool_names = List.sort compare (List.map (fun t -> t.name) adds) in
    let res = match get "RES" with [r] -> r | _ -> "?" in
    let repl = get "REPL" and after = get "AFTER" in
    if res <> "ok" then begin
      (* a rejected candidate must leave the mempool untouched *)
      if repl <> [] then "fail a rejected replacement reported replaced transactions"
      else if List.sort compare after <> pool_names then "fail the mempool changed although the candidate was rejected"
      else "ok"
    end else begin
      let news = triples (get "NEW") in
      let cand_ids = List.map (fun (n, _, _) -> nat_of_int (id_of n)) news in
      let tot f = List.fold_left (fun a x -> Model.Z.add a (zs (f x))) Model.Z0 news in
      let fee = tot (fun (_, f, _) -> f) and vsize = tot (fun (_, _, v) -> v) in
      let cand_names = List.map (fun (n, _, _) -> n) news in
      (* inputs spent from outside the candidate set *)
      let ext_ins = List.concat (List.map (fun t -> List.filter (fun (s, _) -> not (List.mem s cand_names)) t.ins) cands) in
      let ins = List.map enc_in ext_ins in
      let ver = if is_pkg then Model.Z0 else zs (List.hd cands).ver in
      let natl ns = List.map (fun n -> nat_of_int (id_of n)) ns in
      let chunks ws = List.map (fun (a, b) -> (zs a, zs b)) (pairs ws) in
      let db = chunks (get "DB") and da = chunks (get "DA") in
      if Model.rbf_accept_ok pool cand_ids fee vsize ver ins (natl repl) (natl after) db da then "ok"
      else begin
        (* diagnostics only (the verdict above is the proved check) *)
        let dc = Model.direct_conflicts pool ver ins in
        let ev = Model.mark_desc pool dc in
        let name_of i = (List.nth all (int_of_nat i)).name in
        let evn = String.concat "," (List.sort compare (List.map name_of ev)) in
        let why =
          if not (Model.same_set (natl repl) ev) then "replaced set is not the direct conflicts (incl. TRUC sibling) plus their descendants {" ^ evn ^ "}"
          else if dc = [] then "mempool afterwards is not before + new"
          else if not (Model.pays_for_rbf (Model.fees_of pool ev) fee vsize Model.rBF_INCREMENTAL_RELAY_FEE)
          then "accepted although fee " ^ sz fee ^ " < evicted modified fees " ^ sz (Model.fees_of pool ev) ^ " + incremental relay fee for vsize " ^ sz vsize
          else if List.exists (fun t -> List.mem t ev) (Model.tx_parents ins) then "accepted although it spends an output of a transaction it evicts"
          else if List.length (Model.cluster_reps pool dc []) > 100 then "accepted although it conflicts with more than 100 clusters"
          else if (match Model.compare_chunks da db with Some Model.PGreater -> false | _ -> true) then "accepted although the mempool feerate diagram did not strictly improve"
          else "mempool afterwards is not (before - evicted + new), or a value is out of range" in
        "fail " ^ why
      end
    end

let () = main_loop ~model ~holds
