(* Model side of the headerssync family (C33).  Case and output format: see tie/drivers/headerssync_drv.cpp *)
open Conv

let parse_hdr s = match String.split_on_char ':' s with
  | [id; prev; bits; cbit] ->
    { Model.h_id = z_of_string id; h_prev = z_of_string prev; h_bits = z_of_string bits; h_cbit = (cbit = "1") }
  | _ -> failwith "bad header"

let parse_case l =
  match words l with
  | "hs" :: period :: offset :: buffer :: secs :: minwork :: sh :: sb :: sw :: "|" :: rest ->
    let period = z_of_string period in
    let p = { Model.p_period = period; p_offset = z_of_string offset; p_buffer = z_of_string buffer;
              p_max_commitments = Model.max_commitments_of (z_of_string secs) period;
              p_min_work = z_of_string minwork; p_start_hash = z_of_int 0; p_start_bits = z_of_string sb;
              p_start_height = z_of_string sh; p_start_work = z_of_string sw } in
    (* calls *)
    let rec calls toks acc = match toks with
      | [] -> List.rev acc
      | ";" :: r -> calls r acc
      | fl :: r when fl = "F" || fl = "P" ->
        (match r with
         | hs :: r' when hs <> ";" -> calls r' ((fl = "F", List.map parse_hdr (String.split_on_char ',' hs)) :: acc)
         | _ -> calls r ((fl = "F", []) :: acc))
      | _ -> failwith "bad call" in
    (p, calls rest [])
  | _ -> failwith "bad case"

let state_name = function Model.PRESYNC -> "PRESYNC" | Model.REDOWNLOAD -> "REDOWNLOAD" | Model.FINAL -> "FINAL"

let show_result (s' : Model.hss) (r : Model.result) =
  let b x = if x then "1" else "0" in
  let hs = List.map (fun h -> " " ^ string_of_z h.Model.h_id ^ "<" ^ string_of_z h.Model.h_prev) r.Model.r_headers in
  b r.Model.r_success ^ " " ^ b r.Model.r_request_more ^ " " ^ state_name s'.Model.s_state ^ String.concat "" hs

let model _ l =
  let (p, calls) = parse_case l in
  let step = Model.process_next_headers Model.permitted_main Model.block_proof p in
  let rec go s calls acc = match calls with
    | [] -> List.rev acc
    | (_, []) :: rest -> go s rest ("EMPTY" :: acc)
    | (full, hs) :: rest ->
      if s.Model.s_state = Model.FINAL then go s rest ("FINAL" :: acc)
      else let (s', r) = step s hs full in go s' rest (show_result s' r :: acc) in
  let outs = go (Model.hs_init p) calls [] in
  if outs = [] then "-" else String.concat " ; " outs

(* The property's own predicate on what the implementation answered (per call):
   - nothing is handed out for storage while the state before the call was PRESYNC;
   - what is handed out links up: the first released header's prevhash is the hash released last
     (or the sync start), each next one's prevhash is the previous one's hash, and every released id
     is a header the peer actually sent in the second pass with that prevhash;
   - headers are handed out only after the first pass reached the minimum work (the state was
     REDOWNLOAD before the call). *)
let holds _ c impl =
  let (p, calls) = parse_case c in
  let accepted = ref Z.zero and released_n = ref Z.zero in
  let rwork = ref (zt_of_z p.Model.p_start_work) in
  let two256 = Z.shift_left Z.one 256 in
  let outs = Str.split (Str.regexp_string " ; ") impl in
  if impl = "-" && calls = [] then "ok"
  else if List.length outs <> List.length calls then "fail wrong number of call results"
  else begin
    let sent = Hashtbl.create 64 in   (* id -> prev of every header sent so far *)
    let last_released = ref (Z.zero) in
    let state = ref "PRESYNC" in
    let verdict = ref "ok" in
    (* the commitment clause: extracted holds_commitments (sound by C33_holds_commitments_sound) on
       the (success, state after) the implementation reported per call *)
    let st_of = function "PRESYNC" -> Model.PRESYNC | "REDOWNLOAD" -> Model.REDOWNLOAD | _ -> Model.FINAL in
    (try
       let cur = ref Model.PRESYNC in
       let reported = List.map (fun o -> match words o with
           | suc :: _ :: st :: _ -> cur := st_of st; (suc = "1", !cur)
           | _ -> (false, !cur)) outs in
       let mcalls = List.map (fun (full, hs) -> (hs, full)) calls in
       if not (Model.holds_commitments p mcalls reported) then
         verdict := "fail the sync went on in REDOWNLOAD although a re-downloaded header at a commitment height has no matching first-pass commitment (the headers behind released ones were not checked against the first pass)"
     with _ -> ());
    List.iter2 (fun (_, hs) o ->
        List.iter (fun h -> Hashtbl.replace sent (zt_of_z h.Model.h_id) (zt_of_z h.Model.h_prev)) hs;
        match words o with
        | ["EMPTY"] | ["FINAL"] -> ()
        | suc :: _more :: st :: released ->
          (* buried: while the re-downloaded chain has not itself reached the minimum work, a released
             header leaves at least redownload_buffer_size accepted headers behind it *)
          if !state = "REDOWNLOAD" && suc = "1" then begin
            List.iter (fun h -> rwork := Z.rem (Z.add !rwork (zt_of_z (Model.block_proof h.Model.h_bits))) two256) hs;
            accepted := Z.add !accepted (Z.of_int (List.length hs));
            released_n := Z.add !released_n (Z.of_int (List.length released));
            if released <> [] && Z.lt !rwork (zt_of_z p.Model.p_min_work)
               && Z.lt (Z.sub !accepted !released_n) (zt_of_z p.Model.p_buffer) then
              verdict := "fail a header was released with fewer than redownload_buffer_size re-downloaded headers behind it although the re-downloaded chain has not reached the minimum work"
          end;
          if released <> [] && !state <> "REDOWNLOAD" then verdict := "fail headers were released for storage before the peer's chain reached the minimum work (state " ^ !state ^ ")";
          List.iter (fun tok ->
              match String.split_on_char '<' tok with
              | [id; prev] when id <> "?" && prev <> "?" ->
                let id = Z.of_string id and prev = Z.of_string prev in
                if not (Z.equal prev !last_released) then verdict := "fail released headers do not form one continuous chain from the sync start";
                (match Hashtbl.find_opt sent id with
                 | Some pr when Z.equal pr prev -> ()
                 | _ -> verdict := "fail a released header is not a header the peer sent");
                last_released := id
              | _ -> verdict := "fail a released header is not a header the peer sent") released;
          state := st
        | _ -> verdict := "fail malformed call result") calls outs;
    !verdict
  end

let () = main_loop ~model ~holds
