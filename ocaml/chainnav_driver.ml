(* Model side of the chain navigation family (C54). *)
open Conv
let pad64 s = if String.length s < 64 then String.make (64 - String.length s) '0' ^ s else s
let hex256 z = pad64 (hex_of_z z)
let nat s = nat_of_int (int_of_string s)
let ptr = function Model.PBlock i -> string_of_int (int_of_nat i) | Model.PNull -> "null" | Model.PBug -> "BUG"
let opt_id = function Some i -> string_of_int (int_of_nat i) | None -> "null"

let rec split_bar acc = function
  | [] -> (List.rev acc, [])
  | "|" :: r -> (List.rev acc, r)
  | x :: r -> split_bar (x :: acc) r

(* tree <nb> <bits...> <N> <p1> ... <p(N-1)> | queries *)
let parse_tree ws =
  match ws with
  | nb :: rest ->
    let nb = int_of_string nb in
    let bits = Array.of_list (List.map z_of_string (List.filteri (fun i _ -> i < nb) rest)) in
    let rest = List.filteri (fun i _ -> i >= nb) rest in
    (match rest with
     | n :: parents ->
       let n = int_of_string n in
       let parents = Array.of_list (List.map int_of_string parents) in
       let blocks = List.init n (fun i ->
           ((if i = 0 then None else Some (nat_of_int parents.(i - 1))), bits.(i mod nb))) in
       Model.build_tree blocks
     | _ -> failwith "bad tree")
  | _ -> failwith "bad tree"

let rec run_queries t qs acc =
  match qs with
  | [] -> List.rev acc
  | "a" :: b :: h :: r -> run_queries t r (ptr (Model.get_ancestor t (nat b) (z_of_string h)) :: acc)
  | "s" :: b :: r ->
    let v = match Model.get_node t (nat b) with Some nd -> opt_id nd.Model.nd_skip | None -> "BUG" in
    run_queries t r (v :: acc)
  | "h" :: b :: r ->
    let v = match Model.get_node t (nat b) with Some nd -> string_of_z nd.Model.nd_height | None -> "BUG" in
    run_queries t r (v :: acc)
  | "w" :: b :: r ->
    let v = match Model.get_node t (nat b) with Some nd -> hex256 nd.Model.nd_work | None -> "BUG" in
    run_queries t r (v :: acc)
  | "l" :: a :: b :: r -> run_queries t r (ptr (Model.last_common_ancestor t (nat a) (nat b)) :: acc)
  | "f" :: tip :: b :: r ->
    run_queries t r (ptr (Model.find_fork t (Model.set_tip t (nat tip)) (nat b)) :: acc)
  | "c" :: tip :: h :: r ->
    run_queries t r (opt_id (Model.chain_at (Model.set_tip t (nat tip)) (z_of_string h)) :: acc)
  | "loc" :: b :: r ->
    let v = match Model.locator_entries t (nat b) with
      | Some l -> String.concat "," (List.map (fun i -> string_of_int (int_of_nat i)) l)
      | None -> "BUG" in
    run_queries t r (v :: acc)
  | _ -> failwith "bad query"

let model _ l = match words l with
  | ["proof"; bits] -> (match Model.get_bits_proof (z_of_string bits) with Some p -> hex256 p | None -> "DIVZERO")
  | "tree" :: ws ->
    let (tw, qs) = split_bar [] ws in
    let t = parse_tree tw in
    String.concat " " (run_queries t qs [])
  | _ -> "BADCASE"

(* the property's own predicates on what the implementation returned: the naive parent walk
   (ancestor_spec), common ancestors by comparing the two ancestries height by height, locator
   heights by the arithmetic rule, floor(2^256/(target+1)) by big-integer arithmetic *)
let two256 = Z.shift_left Z.one 256
let spec_proof bits =
  let m = zt_of_z (Model.compact_magnitude bits) in
  if Model.compact_sign bits || Z.equal m Z.zero || Z.geq m two256 then Z.zero
  else Z.div two256 (Z.succ m)

let height t b = match Model.get_node t b with Some nd -> zt_of_z nd.Model.nd_height | None -> Z.minus_one
let anc t b h = Model.ancestor_spec t b (z_of_zt h)
let naive_lca t a b =
  (* highest height at which the two naive ancestries meet *)
  let rec go h =
    if Z.lt h Z.zero then "null"
    else match anc t a h, anc t b h with
      | Some x, Some y when x = y -> string_of_int (int_of_nat x)
      | _ -> go (Z.pred h)
  in go (Z.min (height t a) (height t b))

let rec check_queries t qs outs =
  match qs, outs with
  | [], [] -> "ok"
  | "a" :: b :: h :: r, o :: os ->
    if opt_id (Model.ancestor_spec t (nat b) (z_of_string h)) = o then check_queries t r os
    else "fail GetAncestor is not the block at that height on the path to genesis (query a " ^ b ^ " " ^ h ^ ")"
  | "s" :: b :: r, o :: os ->
    (* what the navigation functions need from pskip: null exactly for a block without parent,
       otherwise a proper ancestor (strictly lower height) of the block.  Which ancestor is a
       performance choice: a different one shows as a disagreement with the model, not as a failure. *)
    (match Model.get_node t (nat b) with
     | Some nd ->
       let good = match nd.Model.nd_parent, o with
         | None, "null" -> true
         | Some _, "null" -> false
         | None, _ -> false
         | Some _, _ ->
           (match int_of_string_opt o with
            | Some s ->
              let hs = height t (nat_of_int s) in
              Z.geq hs Z.zero && Z.lt hs (zt_of_z nd.Model.nd_height) && anc t (nat b) hs = Some (nat_of_int s)
            | None -> false) in
       if good then check_queries t r os else "fail pskip is not a proper ancestor of the block (block " ^ b ^ ")"
     | None -> "na")
  | "h" :: b :: r, o :: os ->
    if Z.to_string (height t (nat b)) = o then check_queries t r os else "fail nHeight is not parent height + 1"
  | "w" :: b :: r, o :: os ->
    (* sum of floor(2^256/(target+1)) over the ancestry *)
    let rec sum b acc = match Model.get_node t b with
      | Some nd ->
        let acc = Z.add acc (spec_proof nd.Model.nd_bits) in
        (match nd.Model.nd_parent with Some p -> sum p acc | None -> acc)
      | None -> acc in
    let s = sum (nat b) Z.zero in
    if Z.geq s two256 then check_queries t r os
    else if pad64 (Z.format "%x" s) = o then check_queries t r os
    else "fail nChainWork is not the sum of floor(2^256/(target+1)) over the ancestry (block " ^ b ^ ")"
  | "l" :: a :: b :: r, o :: os ->
    if naive_lca t (nat a) (nat b) = o then check_queries t r os
    else "fail LastCommonAncestor is not the highest common ancestor (" ^ a ^ "," ^ b ^ ")"
  | "f" :: tip :: b :: r, o :: os ->
    if naive_lca t (nat tip) (nat b) = o then check_queries t r os
    else "fail FindFork is not the highest common ancestor of tip and block (" ^ tip ^ "," ^ b ^ ")"
  | "c" :: tip :: h :: r, o :: os ->
    if opt_id (Model.ancestor_spec t (nat tip) (z_of_string h)) = o then check_queries t r os
    else "fail chain[h] is not the tip's ancestor at height h"
  | "loc" :: b :: r, o :: os ->
    let hb = height t (nat b) in
    let want = List.map (fun h -> opt_id (anc t (nat b) (zt_of_z h))) (Model.locator_heights (z_of_zt hb)) in
    if String.concat "," want = o then check_queries t r os
    else "fail locator is not the ancestors at heights h, h-1, ..(11 single steps).., then doubling steps, genesis last (block " ^ b ^ ")"
  | _, _ -> "fail wrong number of results"

let holds _ cs impl = match words cs with
  | ["proof"; bits] ->
    if pad64 (Z.format "%x" (spec_proof (z_of_string bits))) = impl then "ok"
    else "fail GetBitsProof is not floor(2^256/(target+1)) (0 for invalid targets)"
  | "tree" :: ws ->
    let (tw, qs) = split_bar [] ws in
    let t = parse_tree tw in
    check_queries t qs (words impl)
  | _ -> "na"

let () = main_loop ~model ~holds
