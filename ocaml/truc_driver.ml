(* Model side of C27 (TRUC topology rules), op sequences.
   truc <nbuild> { <ver> <nin> {e <a> <n> | p <j> <n>}* <nout> <pad> <weight> }* <nops> <op>*   (see tie/drivers/truc_drv.cpp)
   txid label of built[b] is b+1; external hash a is 1000000+a. *)
open Conv

let kind_str = function
  | Model.TE_nonv3_spends_v3 -> "nonv3-spends-v3" | Model.TE_v3_spends_nonv3 -> "v3-spends-nonv3"
  | Model.TE_too_big -> "too-big" | Model.TE_too_many_ancestors -> "too-many-ancestors"
  | Model.TE_child_too_big -> "child-too-big" | Model.TE_desc_limit -> "desc-limit"

type op = F of int | A of int | S of int * int * int list | K of int list | Q of int list * int | R of int | B of int

let parse_built (rest : string list ref) nb =
  let next () = match !rest with x :: t -> rest := t; x | [] -> failwith "short case" in
  let nexti () = int_of_string (next ()) in
  let built = Array.make (max nb 1) None in
  let get b = match built.(b) with Some t -> t | None -> failwith "bad ref" in
  for b = 0 to nb - 1 do
    let ver = next () in
    let nin = nexti () in
    let ins = ref [] in
    for _ = 1 to nin do
      let ik = next () in let a = nexti () in let n = next () in
      let h = if ik = "e" then z_of_int (1000000 + a) else (get a).Model.p_txid in
      ins := (h, z_of_string n) :: !ins
    done;
    let nout = next () in let _pad = next () in let wgt = next () in
    built.(b) <- Some { Model.p_txid = z_of_int (b + 1); Model.p_wtxid = z_of_int (b + 1);
                        Model.p_inputs = List.rev !ins; Model.p_weight = z_of_string wgt;
                        Model.p_fee = z_of_int 0; Model.p_version = z_of_string ver; Model.p_nout = z_of_string nout }
  done;
  Array.to_list (Array.sub built 0 nb) |> List.map (function Some t -> t | None -> failwith "hole")

let parse ws =
  match ws with
  | "truc" :: nb :: r ->
    let nb = int_of_string nb in
    let rest = ref r in
    let built = parse_built rest nb in
    let next () = match !rest with x :: t -> rest := t; x | [] -> failwith "short case" in
    let nexti () = int_of_string (next ()) in
    let nops = nexti () in
    let ops = List.init nops (fun _ ->
        match next () with
        | "F" -> F (nexti ()) | "A" -> A (nexti ()) | "R" -> R (nexti ()) | "B" -> B (nexti ())
        | "S" -> let i = nexti () in let vs = nexti () in let k = nexti () in S (i, vs, List.init k (fun _ -> nexti ()))
        | "K" -> let k = nexti () in K (List.init k (fun _ -> nexti ()))
        | "Q" -> let k = nexti () in let l = List.init k (fun _ -> nexti ()) in Q (l, nexti ())
        | o -> failwith ("bad op " ^ o)) in
    (built, ops)
  | _ -> failwith "bad case"

(* mode limits: lim <count> <size_vbytes> <nbuild> {...}* <nops> { C i | T i | R i }* *)
let parse_lim ws =
  match ws with
  | "lim" :: cnt :: sz :: nb :: r ->
    let rest = ref r in
    let built = parse_built rest (int_of_string nb) in
    let next () = match !rest with x :: t -> rest := t; x | [] -> failwith "short case" in
    let nops = int_of_string (next ()) in
    let ops = List.init nops (fun _ -> let o = next () in let i = int_of_string (next ()) in (o, i)) in
    (z_of_string cnt, z_of_string sz, built, ops)
  | _ -> failwith "bad case"

let run_lim (cnt, sz, built, ops) =
  let b i = List.nth built i in
  let skip pool i = Model.has_txid pool (b i).Model.p_txid || Model.children_of pool (b i) <> [] in
  let step (pool, acc) (o, i) =
    match o with
    | "C" -> if skip pool i then (pool, "C:skip" :: acc)
      else (pool, ("C:" ^ (if Model.check_policy_limits cnt sz pool (b i) then "1" else "0")) :: acc)
    | "T" -> if skip pool i then (pool, "T:skip" :: acc)
      else if Model.check_policy_limits cnt sz pool (b i) then (pool @ [b i], "T:1" :: acc) else (pool, "T:0" :: acc)
    | "R" -> let roots = (b i).Model.p_txid :: List.map (fun t -> t.Model.p_txid) (Model.children_of pool (b i)) in
      (Model.remove_set (Model.desc_txids pool roots) pool, "R" :: acc)
    | _ -> failwith "bad op" in
  let (pool, toks) = List.fold_left step ([], []) ops in
  (pool, List.rev toks)

let dump_lim built pool =
  let items = List.filter (fun t -> Model.has_txid pool t.Model.p_txid) built in
  let s = String.concat "," (List.map (fun t -> string_of_int (int_of_z t.Model.p_txid - 1)) items) in
  (if s = "" then "none" else s) ^ ":" ^ string_of_int (List.length pool)

let idx_of (t : Model.ptx) = string_of_int (int_of_z t.Model.p_txid - 1)
let res_str = function None -> "ok" | Some e -> kind_str e

let run (built, ops) =
  let b i = List.nth built i in
  let txid i = (b i).Model.p_txid in
  let step (pool, acc) op =
    match op with
    | F i -> if Model.has_txid pool (txid i) then (pool, "F:dup" :: acc)
      else if Model.children_of pool (b i) <> [] then (pool, "F:skip" :: acc)
      else (Model.truc_apply pool (Model.Op_force (b i)), "F:ok" :: acc)
    | A i ->
      let (o, pool') = Model.truc_try_add pool (b i) in
      let tok = match o with
        | Model.AO_skipped -> "A:skip" | Model.AO_rejected e -> "A:" ^ kind_str e | Model.AO_spends_conflict -> "A:spends-conflict"
        | Model.AO_added None -> "A:added" | Model.AO_added (Some s) -> "A:added:sib" ^ idx_of s in
      (pool', tok :: acc)
    | S (i, vs, confs) ->
      let tx = b i in
      let v = if vs < 0 then Model.vsize_of tx else z_of_int vs in
      let r = Model.single_truc_checks pool tx (Model.parents_of pool tx) (List.map txid confs) v in
      let tok = match r with None -> "S:ok" | Some (e, None) -> "S:" ^ kind_str e | Some (e, Some s) -> "S:" ^ kind_str e ^ ":sib" ^ idx_of s in
      (pool, tok :: acc)
    | K l ->
      let pkg = List.map b l in
      (match Model.truc_try_package pool pkg with
       | (None, _) -> (pool, "K:skip" :: acc)
       | (Some res, pool') ->
         let body = String.concat "," (List.map (fun (a, c) -> res_str a ^ "/" ^ res_str c) res) in
         let added = List.for_all (fun (a, c) -> a = None && c = None) res in
         (pool', ("K:" ^ body ^ (if added then ":added" else "")) :: acc))
    | Q (l, vs) ->
      let pkg = List.map b l in
      let body = String.concat "," (List.mapi (fun i tx ->
          let v = if vs < 0 then Model.vsize_of tx else z_of_int vs in
          "-/" ^ res_str (Model.package_truc_checks pool pkg (nat_of_int i) tx v (Model.parents_of pool tx))) pkg) in
      (pool, ("Q:" ^ body) :: acc)
    (* removeRecursive(tx): tx and its descendants; when tx is not there, its in-mempool children and their descendants *)
    | R i -> let roots = txid i :: List.map (fun t -> t.Model.p_txid) (Model.children_of pool (b i)) in
      (Model.remove_set (Model.desc_txids pool roots) pool, "R" :: acc)
    (* a block containing tx contains its unconfirmed ancestors: removeForBlock(ancestors ++ [tx]) removes exactly these
       (their other descendants stay), then removeConflicts: every other mempool transaction spending one of their
       outpoints, recursively *)
    | B i -> let anc = Model.anc_set pool (b i) in
      let pool1 = Model.remove_set (List.map (fun t -> t.Model.p_txid) anc) pool in
      let confs = List.concat_map (fun a -> Model.direct_conflicts pool1 a) anc in
      (Model.remove_set (Model.desc_txids pool1 confs) pool1, "B" :: acc) in
  let (pool, toks) = List.fold_left step ([], []) ops in
  (pool, List.rev toks)

let dump built pool =
  let items = List.filter (fun t -> Model.has_txid pool t.Model.p_txid) built in
  let s = String.concat "," (List.map (fun t ->
      Printf.sprintf "%s:%s:%s:%s" (idx_of t) (string_of_z (Model.anc_count pool t)) (string_of_z (Model.desc_count pool t))
        (string_of_z (Model.vsize_of t))) items) in
  (if s = "" then "none" else s) ^ ":" ^ string_of_int (List.length pool)

let model _ l =
  let ws = words l in
  match ws with
  | "lim" :: _ ->
    let (cnt, sz, built, ops) = parse_lim ws in
    let (pool, toks) = run_lim (cnt, sz, built, ops) in
    (if toks = [] then "noop" else String.concat " " toks) ^ " pool=" ^ dump_lim built pool
  | _ ->
  let (built, ops) = parse ws in
  let (pool, toks) = run (built, ops) in
  (if toks = [] then "noop" else String.concat " " toks) ^ " pool=" ^ dump built pool

(* limits mode: after every acceptance every cluster of the mempool the implementation ended with is within the
   configured count and size limits (recomputed by the model on the observed membership) *)
let holds_lim c impl =
  let (cnt, sz, built, _) = parse_lim (words c) in
  let ws = words impl in
  let pf = List.find (fun w -> String.length w > 5 && String.sub w 0 5 = "pool=") ws in
  let body = String.sub pf 5 (String.length pf - 5) in
  let items = List.filter (fun s -> s <> "" && s <> "none") (String.split_on_char ',' (String.sub body 0 (String.rindex body ':'))) in
  let pool = List.map (fun i -> List.nth built (int_of_string i)) items in
  if Model.check_cluster_limits cnt (z_of_zt (Z.mul (zt_of_z sz) (Z.of_int 4))) pool then "ok"
  else "fail a cluster of the mempool the implementation ended with exceeds the configured count or size limit"

(* the property on what the implementation did: in a history without forced (reorg-like) additions, the mempool the
   implementation ended with satisfies the TRUC invariants, recomputed by the model on the observed membership,
   and the implementation's own ancestor/descendant counts of version-3 transactions are within the limits *)
let holds _ c impl =
  if (match words c with "lim" :: _ -> true | _ -> false) then holds_lim c impl else
  let (built, ops) = parse (words c) in
  if List.exists (function F _ -> true | _ -> false) ops then "na" else
  let ws = words impl in
  let pf = List.find (fun w -> String.length w > 5 && String.sub w 0 5 = "pool=") ws in
  let body = String.sub pf 5 (String.length pf - 5) in
  let items = List.filter (fun s -> s <> "") (String.split_on_char ',' (String.sub body 0 (String.rindex body ':'))) in
  if items = ["none"] || items = [] then "ok" else
  let parsed = List.map (fun it -> match String.split_on_char ':' it with
      | [i; a; d; v] -> (int_of_string i, int_of_string a, int_of_string d, int_of_string v) | _ -> failwith "bad dump") items in
  let pool = List.map (fun (i, _, _, _) -> List.nth built i) parsed in
  let bad_counts = List.exists (fun (i, a, d, _) -> Model.is_truc (List.nth built i) && (a > 2 || d > 2)) parsed in
  if bad_counts then "fail a version-3 transaction has more than 2 ancestors or descendants (implementation's own counts)"
  else if not (Model.truc_holds pool) then "fail TRUC invariant violated by the mempool the implementation ended with"
  else "ok"
let () = main_loop ~model ~holds
