(* Model side of the Amount family (C31 ...). *)
open Conv
let chain i = List.nth Model.all_chains (int_of_string i)
let int32_max = z_of_string "2147483647"
let halving_heights ch =
  let i = ch.Model.cp_halving_interval in
  let rec go k acc =
    if k > 64 then List.rev acc
    else let h = Model.Z.mul (z_of_int k) i in
      if Model.Z.leb h int32_max then go (k + 1) (h :: acc) else List.rev acc
  in go 0 []

let model _ l = match words l with
  | ["subsidy"; c; h] -> string_of_z (Model.chain_subsidy (chain c) (z_of_string h))
  | ["total"; c] ->
    let ch = chain c in
    String.concat " " (string_of_z ch.Model.cp_halving_interval ::
                       List.map (fun h -> string_of_z (Model.chain_subsidy ch h)) (halving_heights ch))
  | ["moneyrange"; v] -> string_of_bool01 (Model.money_range (z_of_string v))
  | _ -> "BADCASE"

(* the property's own predicate, evaluated on what the implementation returned *)
let holds _ c impl = match words c with
  | ["subsidy"; ci; h] ->
    let ch = chain ci in
    let spec = Model.subsidy_spec ch.Model.cp_halving_interval (z_of_string h) in
    if string_of_z spec = impl then "ok" else "fail subsidy differs from 50BTC>>halvings: spec=" ^ string_of_z spec
  | ["total"; ci] ->
    (match words impl with
     | i :: subs ->
       let l = List.map z_of_string subs in
       if Model.holds_total (z_of_string i) l then "ok"
       else "fail total issuance interval*sum(per-halving subsidy) >= 21,000,000 BTC"
     | _ -> "fail malformed")
  | ["moneyrange"; v] ->
    let x = zt_of_string v in
    let spec = Z.geq x Z.zero && Z.leq x (Z.of_string "2100000000000000") in
    if string_of_bool01 spec = impl then "ok" else "fail MoneyRange is not [0, 21M BTC]"
  | _ -> "na"

let () = main_loop ~model ~holds
