(* Model side of the wallet balance check (C44).  The case is a scenario executed by the C++ driver only; the model
   prints `*` and `holds` judges every snapshot the implementation reported (see tie/drivers/wallet_bal_drv.cpp):
     - the transcription of GetBalance / AvailableCoins evaluated on the reported wallet states,
     - the specification evaluated on the reported active chain and mempool,
     - `tracks`: every wallet transaction's state is its true status and no relevant transaction is missing. *)
open Conv

let split c s = String.split_on_char c s
let model _ _ = "*"

let holds _ _ impl =
  match List.map String.trim (split '|' impl) with
  | [] -> "fail empty"
  | tbl :: steps ->
    let entries = (match words tbl with "T" :: r -> r | _ -> failwith "table") in
    let names = List.map (fun e -> List.hd (split '=' e)) entries in
    let id_of n = let rec go i = function [] -> 9999 | x :: r -> if x = n then i else go (i + 1) r in go 0 names in
    let parse_ref r = match split '.' r with [n; k] -> (nat_of_int (id_of n), nat_of_int (int_of_string k)) | _ -> failwith ("ref " ^ r) in
    let list_of s = if s = "-" || s = "" then [] else split ',' s in
    let table = List.map (fun e ->
        match split '=' e with
        | [n; body] ->
          (match split '/' body with
           | [cb; ins; outs] ->
             { Model.t_id = nat_of_int (id_of n); Model.t_coinbase = (cb = "c");
               Model.t_ins = List.map parse_ref (list_of ins);
               Model.t_outs = List.map (fun o -> match split ':' o with
                   | [v; m] -> { Model.o_value = z_of_string v; Model.o_mine = (m = "m") } | _ -> failwith "out") (list_of outs) }
           | _ -> failwith "body")
        | _ -> failwith "entry") entries in
    let tx_of n = List.nth table (id_of n) in
    let field kvs k = List.assoc k kvs in
    let check_step i step =
      match words step with
      | _res :: kv ->
        let kvs = List.map (fun w -> match split '=' w with k :: r -> (k, String.concat "=" r) | _ -> failwith "kv") kv in
        let tip = z_of_string (field kvs "tip") in
        let chain = List.map (fun b -> match split ':' b with
            | [h; ns] -> (z_of_string h, List.map (fun n -> nat_of_int (id_of n)) (list_of ns)) | _ -> failwith "block")
            (if field kvs "chain" = "-" then [] else split ';' (field kvs "chain")) in
        let pool = List.map (fun n -> nat_of_int (id_of n)) (list_of (field kvs "pool")) in
        let wl = list_of (field kvs "wallet") in
        if List.exists (fun w -> String.length w >= 7 && String.sub w 0 7 = "UNNAMED") wl then
          Some (Printf.sprintf "step %d: the wallet holds a transaction the scenario did not create" i) else
        let w = List.map (fun e -> match split '=' e with
            | [n; st] ->
              let mconf = String.length st > 0 && st.[String.length st - 1] = '!' in
              let st = if mconf then String.sub st 0 (String.length st - 1) else st in
              let num () = z_of_string (String.sub st 1 (String.length st - 1)) in
              let state = (match st.[0] with
                  | 'C' -> Model.SConfirmed (num ()) | 'M' -> Model.SMempool | 'X' -> Model.SConflicted (num ())
                  | 'I' -> Model.SInactive false | 'A' -> Model.SInactive true | _ -> failwith "state") in
              { Model.e_tx = tx_of n; Model.e_state = state; Model.e_mconf = mconf }
            | _ -> failwith "wentry") wl in
        let show b = Printf.sprintf "%s,%s,%s" (string_of_z b.Model.b_trusted) (string_of_z b.Model.b_pending) (string_of_z b.Model.b_immature) in
        let name_of_id i = List.nth names (int_of_nat i) in
        let show_coins l = let s = List.sort compare (List.map (fun (a, b) -> name_of_id a ^ "." ^ string_of_int (int_of_nat b)) l) in
          if s = [] then "-" else String.concat "," s in
        let bal = field kvs "bal" and coins = field kvs "coins" in
        let pending = Model.own_pending_of w in
        let fuel = nat_of_int (List.length table + 1) in
        let g = show (Model.get_balance w tip fuel) in
        let s = show (Model.balance_spec table chain pool tip fuel pending) in
        if g <> bal then Some (Printf.sprintf "step %d: GetBalance %s differs from its transcription on the reported wallet states: %s" i bal g)
        else if not (Model.tracks table chain pool tip w) then
          Some (Printf.sprintf "step %d: wallet transaction states do not match the active chain / mempool (or a relevant transaction is missing)" i)
        else if s <> bal then Some (Printf.sprintf "step %d: balances %s differ from those computed from the chain and mempool: %s" i bal s)
        else if show_coins (Model.available_coins w tip fuel) <> coins then
          Some (Printf.sprintf "step %d: AvailableCoins %s differs from its transcription: %s" i coins (show_coins (Model.available_coins w tip fuel)))
        else if show_coins (Model.coins_spec table chain pool tip fuel pending) <> coins then
          Some (Printf.sprintf "step %d: spendable coins %s differ from those computed from the chain and mempool: %s" i coins
                  (show_coins (Model.coins_spec table chain pool tip fuel pending)))
        else None
      | _ -> Some "malformed step" in
    let rec go i = function
      | [] -> "ok"
      | s :: r -> (match check_step i s with Some e -> "fail " ^ e | None -> go (i + 1) r) in
    go 1 steps

let () = main_loop ~model ~holds
