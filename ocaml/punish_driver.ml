(* Model side of C36.  case: <conn> <noban> <local> <action ...>;  output "<disconnect> <discouraged>[ m=<mempool size>]" *)
open Conv
let b01 b = if b then "1" else "0"
let show o = b01 o.Model.o_disconnect ^ " " ^ b01 o.Model.o_discourage
let parse c = match words c with
  | conn :: noban :: local :: action -> (int_of_string conn, noban = "1", local = "1", action)
  | _ -> failwith "bad case"
let model _ line =
  let (conn, noban, local, action) = parse line in
  let inbound = (conn = 1) and manual = (conn = 2) in
  let flagged f = show (Model.discourage_and_disconnect f noban manual local) in
  match action with
  | ["mis"] -> flagged true
  | ["blockres"; r] -> show (Model.block_outcome (z_of_string r) false inbound noban manual local)
  | ["tx"; k] ->
    if conn = 3 then "1 0 m=0"   (* block-relay-only connection: a tx message is a protocol violation, the peer is disconnected (not discouraged) *)
    else show (Model.tx_outcome (z_of_int 0) noban manual local) ^ " m=" ^ (match k with "0" | "4" | "6" -> "1" | _ -> "0")
  | ["hdr"; k] ->
    (match k with
     | "0" -> flagged true                                   (* Misbehaving(peer, "header with invalid proof of work") *)
     | "1" -> show (Model.block_outcome Model.bVR_TIME_FUTURE false inbound noban manual local)
     | "2" -> flagged true                                   (* "non-continuous headers sequence" *)
     | _ -> flagged false)
  | ["blk"; k] ->
    (match k with
     | "0" -> flagged true                                   (* "mutated block" *)
     | "1" -> show (Model.block_outcome Model.bVR_CONSENSUS false inbound noban manual local)
     | _ -> flagged false)
  | ["big"; _] -> flagged true                               (* oversized inv / getdata / headers *)
  | _ -> failwith "bad action"
(* the property's own clauses, judged on what the implementation did *)
let holds _ case impl =
  if String.length impl >= 5 && (String.sub impl 0 5 = "CRASH" || String.sub impl 0 3 = "EXC") then "fail the implementation aborted: " ^ impl
  else
    let (conn, noban, local, action) = parse case in
    let manual = (conn = 2) in
    match words impl with
    | disc :: discouraged :: _ ->
      let punished = (disc = "1" || discouraged = "1") in
      (* a tx message on a connection that was told not to send transactions (block-relay-only) is a protocol violation: the peer is dropped
         by the tx handler itself, not through the misbehaviour path, and never discouraged *)
      if conn = 3 && (match action with "tx" :: _ -> true | _ -> false) then (if discouraged = "1" then "fail discouraged for a tx message" else "ok")
      else if (noban || manual) && punished then "fail a noban or manual peer was disconnected or discouraged for misbehaviour"
      else (match action with
          | "tx" :: _ when conn <> 3 && punished -> "fail a transaction message led to the sender being disconnected or discouraged"
          | ["blockres"; r] when not noban && not manual && List.mem r ["1"; "3"; "4"; "5"; "6"] ->
            if disc <> "1" then "fail the sender of an invalid full block was not disconnected"
            else if (discouraged = "1") = local then "fail the sender of an invalid full block: discouraged iff its address is not local is violated"
            else "ok"
          | (["hdr"; "0"] | ["blk"; "0"] | ["blk"; "1"]) when not noban && not manual ->
            if disc <> "1" then "fail the sender of an invalid block / invalid proof-of-work header was not disconnected"
            else if (discouraged = "1") = local then "fail discouraged iff the address is not local is violated"
            else "ok"
          | _ -> "ok")
    | _ -> "fail malformed implementation output"
let () = main_loop ~model ~holds
