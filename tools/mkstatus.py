#!/usr/bin/env python3
"""Prints the per-property status table for DESIGN.md section 9.2 from props/*.py, tools/claimed.json and evidence/*.json."""
import importlib, json, os, sys
V = os.path.dirname(os.path.dirname(os.path.abspath(__file__)))
sys.path.insert(0, V)
claimed = json.load(open(os.path.join(V, "tools", "claimed.json")))
titles = {}
for l in open(os.path.join(V, "properties.jsonl")):
    p = json.loads(l); titles[p["id"]] = p["title"]
print("| ID | Property | Level | Theorems | Ties (quick cases) | Coq files in scope |")
print("|---|---|---|---|---|---|")
for pid in sorted(titles):
    if pid not in claimed:
        print("| %s | %s | not claimed | | | |" % (pid, titles[pid])); continue
    P = importlib.import_module("props." + pid)
    ev = {}
    try:
        ev = json.load(open(os.path.join(V, "evidence", pid + ".json")))
    except Exception:
        pass
    c = ev.get("coverage", {})
    ties = "; ".join("%s (%s)" % (k, v.get("cases")) for k, v in c.get("ties", {}).items())
    nth = len(c.get("theorems", []))
    files = [f for f in c.get("coq_files_in_scope", []) if f.startswith(("model/", "proofs/"))]
    print("| %s | %s | %s | %d | %s | %d |" % (pid, titles[pid], P.LEVEL, nth, ties, len(files)))
