#!/usr/bin/env python3
"""Regenerates MANIFEST.json from the property modules under props/ (one source of truth)."""
import importlib, json, os, sys
V = os.path.dirname(os.path.dirname(os.path.abspath(__file__)))
sys.path.insert(0, V)
ids = [json.loads(l)["id"] for l in open(os.path.join(V, "properties.jsonl"))]
NA_REASONS = {}
p = os.path.join(V, "tools", "unclaimed.json")
if os.path.exists(p):
    NA_REASONS = json.load(open(p))
checks, na, engines = [], [], {}
# only properties whose check has been integrated (passes on the unchanged tree, mutation-tested, committed)
CLAIMED = json.load(open(os.path.join(V, "tools", "claimed.json")))
for pid in ids:
    if pid in CLAIMED and os.path.exists(os.path.join(V, "props", pid + ".py")):
        P = importlib.import_module("props." + pid)
        if getattr(P, "DISABLED", False):
            na.append(dict(property_id=pid, reason=P.DISABLED)); continue
        checks.append(dict(
            property_id=pid,
            quick_cmd="./check %s --tier quick" % pid,
            thorough_cmd="./check %s --tier thorough" % pid,
            evidence_file="evidence/%s.json" % pid,
            replay_cmd_template="./check %s --replay {path}" % pid,
            engine="coq-model+correspondence",
            level_claimed=dict(category=("proof" if P.LEVEL == "partial" else P.LEVEL),
                               text=(("PARTIAL (proved core, named residue in the note): " if P.LEVEL == "partial" else "") + P.LEVEL_TEXT),
                               design_ref=P.DESIGN_REF),
            level_note=P.LEVEL_NOTE,
            technique=P.TECHNIQUE))
    else:
        na.append(dict(property_id=pid, reason=NA_REASONS.get(pid, "not claimed yet: the Coq model, theorems and correspondence for this property are not built in this round (the technique applies; planned design in DESIGN.md section 5)")))
hooks = json.load(open(os.path.join(V, "tools", "hooks.json")))
m = dict(version=1,
         setup_cmd="./setup",
         hooks=hooks,
         engines=[dict(name="coq-model+correspondence", path="check",
                       serves_properties=[c["property_id"] for c in checks],
                       kind_free_text="Coq 8.16.1 theorems over hand-written executable Gallina models (coq/), constants regenerated from the compiled tree (tie/dump_params.cpp -> coq/gen/Params_gen.v), models extracted to OCaml (ExtrOcamlBasic) and run against C++ drivers linked with libraries rebuilt from /repo on every run")],
         checks=checks,
         not_applicable=na,
         notes=("All checks: ./check <ID> --tier quick|thorough; honours VERIF_SEED and VERIF_TIER; exit 0 held (KNOWN-FINDING lines for the open entries "
                "of known_findings.json) / 1 VIOLATION / 2 infrastructure error (no verdict). No hooks were added to /repo. /repo carries nine unguarded "
                "`fix:` commits repairing genuine defects found by the checks (be3e2f2 e8f1dc6 a3617e9 21144c2 767b57b 8268070 e225567 eec7c54 b3a3ee2; "
                "see DESIGN.md 9.5 and known_findings.json 'fixed' entries); the baseline suite passes with them (ctest on /repo/_build: 100%). See DESIGN.md section 9."))
json.dump(m, open(os.path.join(V, "MANIFEST.json"), "w"), indent=1)
print("claimed:", len(checks), "unclaimed:", len(na))
